------------------------------ MODULE Transform ------------------------------
(***************************************************************************)
(* Substitution, lifting, flip and compression (property C05).             *)
(*                                                                         *)
(* Gadget / Induced / NewVarCount state what a transformation *means*: an  *)
(* assignment of the new variables induces an assignment of the original   *)
(* ones (gadget applied block by block), and the transformed formula holds *)
(* exactly when the original holds under the induced assignment.           *)
(* GadgetCNF / ApplySubstitution transcribe the documented construction    *)
(* (substitute the CNF of the gadget, or of its negation, for each literal *)
(* and distribute), so that TLC can check the composition theorem on all   *)
(* tiny formulas (TransformMC).                                            *)
(***************************************************************************)
EXTENDS Linear

\* kinds with a block of k new variables per original variable
BlockKinds == {"xor", "or", "maj", "eq", "neq", "one", "exact", "atleast", "atmost", "anybut"}

\* value of the gadget on a block (a sequence of k booleans)
Ones(bits) == Cardinality({i \in 1..Len(bits) : bits[i]})
Gadget(kind, C, bits) ==
    LET s == Ones(bits)  k == Len(bits) IN
    CASE kind = "xor"     -> s % 2 = 1
      [] kind = "or"      -> s >= 1
      [] kind = "maj"     -> 2 * s >= k
      [] kind = "eq"      -> s = 0 \/ s = k
      [] kind = "neq"     -> ~(s = 0 \/ s = k)
      [] kind = "one"     -> s = 1
      [] kind = "exact"   -> s = C
      [] kind = "atleast" -> s >= C
      [] kind = "atmost"  -> s <= C
      [] kind = "anybut"  -> s # C

\* p = [kind, k, C, graph?]; N = number of original variables; a = assignment of the new variables
Induced(p, N, a) ==
    CASE p.kind \in BlockKinds ->
            [v \in 1..N |-> Gadget(p.kind, p.C, [i \in 1..p.k |-> a[(v - 1) * p.k + i]])]
      [] p.kind = "ite"  -> [v \in 1..N |-> IF a[v] THEN a[N + v] ELSE a[2 * N + v]]
      [] p.kind = "flip" -> [v \in 1..N |-> ~a[v]]
      [] p.kind = "lift" ->   \* X block then Y (selector) block per variable; value = the selected copy
            [v \in 1..N |-> \E i \in 1..p.k : a[(v - 1) * 2 * p.k + p.k + i] /\ a[(v - 1) * 2 * p.k + i]]
      [] p.kind = "xorcomp" ->
            [v \in 1..N |-> Cardinality({w \in BRight(p.graph, v) : a[w]}) % 2 = 1]
      [] p.kind = "majcomp" ->
            [v \in 1..N |-> 2 * Cardinality({w \in BRight(p.graph, v) : a[w]}) >= Cardinality(BRight(p.graph, v))]

\* side condition: lifting requires exactly one selector per variable
SideCondition(p, N, a) ==
    p.kind = "lift" =>
        \A v \in 1..N : Cardinality({i \in 1..p.k : a[(v - 1) * 2 * p.k + p.k + i]}) = 1

NewVarCount(p, N) ==
    CASE p.kind \in BlockKinds -> p.k * N
      [] p.kind = "ite"  -> 3 * N
      [] p.kind \in {"flip", "shuffle", "none"} -> N
      [] p.kind = "lift" -> 2 * p.k * N
      [] p.kind \in {"xorcomp", "majcomp"} -> p.graph.R

\* the property: T(F) holds under a iff the side condition holds and F holds under Induced(a)
Composes(p, N, F, TF, a) ==
    SatCNF(a, TF) <=> (SideCondition(p, N, a) /\ SatCNF(Induced(p, N, a), F))

-----------------------------------------------------------------------------
(* The documented construction                                              *)

Block(v, k) == [i \in 1..k |-> (v - 1) * k + i]
NegOp(op) == CASE op = "==" -> "!=" [] op = "!=" -> "==" [] op = "<" -> ">="
               [] op = ">=" -> "<" [] op = ">" -> "<=" [] op = "<=" -> ">"
OpOf(kind) == CASE kind = "exact" -> "==" [] kind = "atleast" -> ">=" [] kind = "atmost" -> "<="
                [] kind = "anybut" -> "!="

\* CNF (set of clauses) substituted for literal l
GadgetCNF(p, N, l) ==
    LET v == Abs(l)
        pos == l > 0
        B == IF p.kind \in BlockKinds THEN Block(v, p.k) ELSE <<>>
        k == Len(B)
    IN
    CASE p.kind = "xor"  -> ParityEnc(B, pos)
      [] p.kind = "or"   -> IF pos THEN {B} ELSE {<<-B[i]>> : i \in 1..k}
      [] p.kind = "maj"  -> IF pos THEN Blast(B, ">=", (k + 1) \div 2) ELSE Blast(B, "<=", (k - 1) \div 2)
      [] p.kind \in {"eq", "neq"} ->
            IF pos = (p.kind = "eq")
            THEN {<<B[1], -B[k]>>} \cup {<<-B[i - 1], B[i]>> : i \in 2..k}
            ELSE {B, NegSeq(B)}
      [] p.kind = "one"  -> IF pos THEN Blast(B, "==", 1)
                            ELSE {[i \in 1..k |-> IF i = j THEN -B[i] ELSE B[i]] : j \in 1..k}
      [] p.kind \in {"exact", "atleast", "atmost", "anybut"} ->
            Blast(B, IF pos THEN OpOf(p.kind) ELSE NegOp(OpOf(p.kind)), p.C)
      [] p.kind = "ite"  -> LET s == IF pos THEN 1 ELSE -1 IN {<<-v, s * (N + v)>>, <<v, s * (2 * N + v)>>}
      [] p.kind = "flip" -> {<<-l>>}
      [] p.kind = "lift" -> LET s == IF pos THEN 1 ELSE -1 IN
                            {<<-((v - 1) * 2 * p.k + p.k + i), s * ((v - 1) * 2 * p.k + i)>> : i \in 1..p.k}

\* distribute: one new clause per choice of one gadget clause for every literal
RECURSIVE Distribute(_, _, _, _)
Distribute(p, N, c, i) ==
    IF i > Len(c) THEN {<<>>}
    ELSE {g \o rest : g \in GadgetCNF(p, N, c[i]), rest \in Distribute(p, N, c, i + 1)}
ApplySubstitution(p, N, F) ==
    UNION {Distribute(p, N, F[j], 1) : j \in 1..Len(F)}
    \cup (IF p.kind = "lift"
          THEN UNION {Blast([i \in 1..p.k |-> (v - 1) * 2 * p.k + p.k + i], "==", 1) : v \in 1..N}
          ELSE {})
=============================================================================
