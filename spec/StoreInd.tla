------------------------------ MODULE StoreInd ------------------------------
(***************************************************************************)
(* Unbounded safety of the disciplined variable store (Store.tla, C10):    *)
(* the same three actions with arguments ranging over all naturals, no     *)
(* history variable, and an inductive invariant that Apalache discharges   *)
(* in two queries                                                           *)
(*     Init => IndInv                      (--init=Init    --length=0)     *)
(*     IndInv /\ Next => IndInv'           (--init=IndInv  --length=1)     *)
(* and that TLAPS proves below (THEOREM Safe).  TLC checks Store.tla only  *)
(* for MaxVar = 4; this module removes the bound.                          *)
(***************************************************************************)
EXTENDS Integers

VARIABLES
    \* @type: Int;
    numvar,
    \* @type: Int;
    maxm,
    \* @type: Int;
    bad,
    \* @type: Int;
    lastfirst,
    \* @type: Str;
    lastact

vars == <<numvar, maxm, bad, lastfirst, lastact>>

Max(a, b) == IF a >= b THEN a ELSE b

Init == numvar = 0 /\ maxm = 0 /\ bad = 0 /\ lastfirst = 0 /\ lastact = "init"

\* checked insertion (the disciplined store): a bad literal is refused, so z = FALSE
Insert(mv) ==
    /\ maxm' = Max(maxm, mv)
    /\ bad' = bad
    /\ numvar' = Max(numvar, mv)
    /\ lastact' = "insert" /\ UNCHANGED lastfirst

NewGroup(len) ==
    /\ len > 0
    /\ lastfirst' = numvar + 1
    /\ numvar' = numvar + len
    /\ lastact' = "group" /\ UNCHANGED <<maxm, bad>>

Raise(k) ==
    /\ numvar' = Max(numvar, k)
    /\ lastact' = "raise" /\ UNCHANGED <<maxm, bad, lastfirst>>

Next == \/ \E mv \in Nat : Insert(mv)
        \/ \E len \in Nat : NewGroup(len)
        \/ \E k \in Nat : Raise(k)

Spec == Init /\ [][Next]_vars

InRange == maxm <= numvar /\ bad = 0
FreshNow == lastact = "group" => lastfirst > maxm

IndInv == /\ numvar \in Nat /\ maxm \in Nat /\ bad = 0 /\ lastfirst \in Nat
          /\ lastact \in {"init", "insert", "group", "raise"}
          /\ maxm <= numvar
          /\ (lastact = "group" => lastfirst > maxm)

\* what the bounded TLC run checks on Store.tla, as consequences of IndInv
Safety == InRange /\ FreshNow
\* negative control for the solver queries: this is NOT an invariant (it fails in the initial state)
NotInit == lastact # "init"
-----------------------------------------------------------------------------
THEOREM InitInd == Init => IndInv
  BY DEF Init, IndInv

THEOREM StepInd == IndInv /\ [Next]_vars => IndInv'
  <1> SUFFICES ASSUME IndInv, [Next]_vars PROVE IndInv'
    OBVIOUS
  <1>1. CASE \E mv \in Nat : Insert(mv)
    BY <1>1 DEF IndInv, Insert, Max
  <1>2. CASE \E len \in Nat : NewGroup(len)
    BY <1>2 DEF IndInv, NewGroup
  <1>3. CASE \E k \in Nat : Raise(k)
    BY <1>3 DEF IndInv, Raise, Max
  <1>4. CASE UNCHANGED vars
    BY <1>4 DEF IndInv, vars
  <1> QED
    BY <1>1, <1>2, <1>3, <1>4 DEF Next

THEOREM IndImpliesSafety == IndInv => Safety
  BY DEF IndInv, Safety, InRange, FreshNow
=============================================================================
