SPECIFICATION Spec
CONSTANTS
  Cls = "OPB"
  NVars = 2
  MaxRows = 2
  MaxWidth = 2
  Coefs = {0, 2}
  Degs <- DegsTwo
  PageSize = 1
INVARIANT OpbRoundTrip
INVARIANT OpbAsCode
INVARIANT OpbSensitive
INVARIANT OpbCommentsOnly
INVARIANT LatexRoundTrip
INVARIANT LatexAsCode
INVARIANT LatexSensitive
CHECK_DEADLOCK FALSE
