\* exhaustive model check of the solver bridge machine, thorough scope
SPECIFICATION Spec
CONSTANTS
  Fams = {"resolve", "auto", "parse", "doc", "rfile", "fault", "isat"}
  Kinds = {"c", "cx", "blank", "sSAT", "sUNSAT", "sOTHER", "sSHORT", "v", "junk", "vjunk", "sjunk"}
  MaxLines = 4
  MaxV = 3
  IsatLines = 3
  WideResolve = TRUE
  Export = FALSE
INVARIANT TypeOK
INVARIANT NoLeak
INVARIANT FilesOnlyDuringCall
INVARIANT RightSolver
INVARIANT ReturnTrueSound
INVARIANT TrueNoneOnlyWithoutModel
INVARIANT PositiveSound
INVARIANT NegativeSound
INVARIANT VerdictNeedsSolver
INVARIANT AnswerReported
INVARIANT NoAnswerRaises
INVARIANT FailingSolverRaises
INVARIANT MissingSolverRaises
INVARIANT UnsupportedRaises
INVARIANT BadSameasRaises
INVARIANT ValueErrorOnlyDocumented
INVARIANT RuntimeErrorOnlyDocumented
INVARIANT ApiShape
PROPERTY FilesStepwise
PROPERTY Termination
CHECK_DEADLOCK FALSE
