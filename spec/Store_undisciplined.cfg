SPECIFICATION Spec
CONSTANTS MaxVar = 4
  Depth = 0
  Discipline = FALSE
PROPERTY Fresh
CONSTRAINT Bounded
VIEW ModelView
CHECK_DEADLOCK FALSE
