SPECIFICATION Spec
CONSTANTS MaxVar = 4
  Discipline = FALSE
PROPERTY Fresh
CONSTRAINT Bounded
CHECK_DEADLOCK FALSE
