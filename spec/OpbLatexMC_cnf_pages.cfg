SPECIFICATION Spec
CONSTANTS
  Cls = "CNF"
  NVars = 2
  MaxRows = 3
  MaxWidth = 1
  Coefs = {1}
  Degs <- DegsOne
  PageSize = 2
INVARIANT OpbRoundTrip
INVARIANT OpbAsCode
INVARIANT OpbSensitive
INVARIANT OpbCommentsOnly
INVARIANT LatexRoundTrip
INVARIANT LatexAsCode
INVARIANT LatexSensitive
CHECK_DEADLOCK FALSE
