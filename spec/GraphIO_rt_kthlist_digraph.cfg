SPECIFICATION Spec
CONSTANTS
  Fmt = "kthlist"
  Type = "digraph"
  N = 3
  MaxLen = 0
  Mode = "roundtrip"
  Prune = TRUE
  Guide = FALSE
  Emit = FALSE
INVARIANT TypeOK
INVARIANT Conforms
INVARIANT Complete
INVARIANT DagAccept
INVARIANT RoundTripOK
CHECK_DEADLOCK FALSE
