SPECIFICATION Spec
CONSTANTS
  Alphabet <- SmallAlphabet
  MaxK = 4
  MaxLen = 3
INVARIANT TypeOK
INVARIANT DisciplinedInRange
INVARIANT DocImpliesImpl
INVARIANT AgreeOnEqualFlags
PROPERTY Monotone
PROPERTY AppendOnly
CHECK_DEADLOCK FALSE
