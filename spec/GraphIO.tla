------------------------------- MODULE GraphIO -------------------------------
(***************************************************************************)
(* Graph files (property C14): kthlist, dimacs and matrix readers/writers  *)
(* of cnfgen.graphs.                                                       *)
(*                                                                         *)
(* A TEXT is a sequence of LINES, a line is [k, t]: k is the first         *)
(* character of the stripped line ("blank" for a line without tokens), t   *)
(* the sequence of whitespace separated TOKENS (for kthlist the colon is   *)
(* a token of its own).  A token is [i, w]: an integer token has w = ""    *)
(* and value i, any other token has its spelling in w (and i = 0).         *)
(*                                                                         *)
(* Part 1  DENOTATION of a text, written from the format documentation     *)
(*         (www/KTHlistFormat.txt, www/graphformats.org, the DIMACS edge   *)
(*         format), declaratively over the whole text; independent of the  *)
(*         reader machines below.  Allowed(...) is the verdict predicate:  *)
(*         ValueError, or the denoted graph (upward, if declared a dag).   *)
(* Part 2  WRITERS, pure.                                                   *)
(* Part 3  READER MACHINES shaped like the implementation: they consume    *)
(*         one line per step, one action per line kind the code            *)
(*         distinguishes (the matrix reader folds one token at a time      *)
(*         inside a data line), with the bookkeeping fields of the code    *)
(*         (size, previous, the ambiguous bipartition interval; n, m, the  *)
(*         edge counter; the position in the matrix).  They are the        *)
(*         INTENDED machines: where the code crashes (blank dimacs line,   *)
(*         empty kthlist) or forgets an update (bipartite `previous`)      *)
(*         the machine does what its neighbours in the code do.            *)
(* Part 4  The model: feed lines of a small alphabet (Mode "free") or the  *)
(*         output of a writer (Mode "roundtrip"); invariants Conforms,     *)
(*         Complete, RoundTripOK, DagAccept.  Export of the explored       *)
(*         texts for replay into the real readers.                         *)
(***************************************************************************)
EXTENDS Integers, Sequences, FiniteSets, TLC, Json

CONSTANTS Fmt,      \* "kthlist" | "dimacs" | "matrix"
          Type,     \* "simple" | "digraph" | "dag" | "bipartite"
          N,        \* vertex bound of the alphabet / of the graphs written
          MaxLen,   \* number of lines fed (free mode)
          Mode,     \* "free" | "roundtrip"
          Prune,    \* free mode: stop extending a text once the machine has refused it
          Guide,    \* free mode: offer only lines the machine survives and run to MaxLen (random walks)
          Emit      \* print every finished text (export runs)

VARIABLES text,     \* lines consumed so far
          st,       \* reader machine state
          pending,  \* roundtrip mode: lines still to be fed
          goal      \* roundtrip mode: the graph that was written
vars == <<text, st, pending, goal>>

-----------------------------------------------------------------------------
(* vocabulary                                                               *)

I(k) == [i |-> k, w |-> ""]
W(s) == [i |-> 0, w |-> s]
IsInt(t) == t.w = ""
Ln(k, toks) == [k |-> k, t |-> toks]
Colon == W(":")

Elems(s) == {s[j] : j \in 1..Len(s)}
AllInts(s) == \A j \in 1..Len(s) : IsInt(s[j])
Ints(s) == [j \in 1..Len(s) |-> s[j].i]
SMax(S) == CHOOSE x \in S : \A y \in S : y <= x
SMin(S) == CHOOSE x \in S : \A y \in S : x <= y
RECURSIVE SortedSeq(_)
SortedSeq(S) == IF S = {} THEN <<>> ELSE LET x == SMin(S) IN <<x>> \o SortedSeq(S \ {x})
RECURSIVE Flat(_)
Flat(ls) == IF ls = <<>> THEN <<>> ELSE Head(ls).t \o Flat(Tail(ls))

\* graphs: n vertices (left side for bipartite), r right side (else 0), E set of pairs;
\* simple graphs keep every edge as <<min, max>>
Gr(n, r, E) == [n |-> n, r |-> r, E |-> E]
NoGraph == Gr(0, 0, {})
Norm(type, e) == IF type = "simple" /\ e[1] > e[2] THEN <<e[2], e[1]>> ELSE e
Upward(E) == \A e \in E : e[1] < e[2]
InHouse(fmt) == fmt \in {"kthlist", "dimacs", "matrix"}

-----------------------------------------------------------------------------
(* Part 1a: kthlist denotation.                                             *)
(*  - empty lines and lines starting with c / C are ignored;               *)
(*  - the first other line is <nvert>;                                      *)
(*  - every other line is  <v> : <x1> ... <xk> 0   with all ids in          *)
(*    1..nvert (CNFgen wants the whole list on one line);                   *)
(*  - digraph/dag: the xi are predecessors of v; simple: {v, xi} is an      *)
(*    edge if either endpoint lists the other (documented as CNFgen's       *)
(*    liberal reading), no loops; bipartite: only left vertices have a      *)
(*    line, the left side is 1..L for the largest listed vertex L, every    *)
(*    listed neighbour is on the right (> L) and is right vertex xi - L.    *)
(*  The documentation also asks for increasing order of the lines; a text   *)
(*  that is otherwise meaningful but out of order keeps its denotation      *)
(*  (union of the lines) -- a reader may refuse it (ValueError) but must    *)
(*  not return another graph.                                               *)

KSkip(l)   == Len(l.t) = 0 \/ l.k \in {"c", "C"}
KBody(txt) == SelectSeq(txt, LAMBDA l : ~KSkip(l))
KIsSize(l) == Len(l.t) = 1 /\ IsInt(l.t[1]) /\ l.t[1].i >= 0
KAdjShape(l) ==
    /\ Len(l.t) >= 3
    /\ IsInt(l.t[1])
    /\ l.t[2] = Colon
    /\ \A j \in 3..Len(l.t) : IsInt(l.t[j])
    /\ l.t[Len(l.t)].i = 0
KVertex(l) == l.t[1].i
KList(l)   == {l.t[j].i : j \in 3..(Len(l.t) - 1)}
KLeftSide(rows) == SMax({0} \cup {KVertex(rows[j]) : j \in 1..Len(rows)})

KHasDen(type, txt) ==
    LET b == KBody(txt) IN
    /\ Len(b) >= 1
    /\ KIsSize(b[1])
    /\ LET size == b[1].t[1].i
           rows == Tail(b)
       IN  /\ \A j \in 1..Len(rows) :
                 /\ KAdjShape(rows[j])
                 /\ KVertex(rows[j]) \in 1..size
                 /\ \A x \in KList(rows[j]) : x \in 1..size
           /\ (type = "simple") => \A j \in 1..Len(rows) : KVertex(rows[j]) \notin KList(rows[j])
           /\ (type = "bipartite") =>
                 \A j \in 1..Len(rows) : \A x \in KList(rows[j]) : x > KLeftSide(rows)

KDen(type, txt) ==
    LET b == KBody(txt)
        size == b[1].t[1].i
        rows == Tail(b)
        \* <<listed vertex, vertex of the line>>
        pairs == UNION {{<<x, KVertex(rows[j])>> : x \in KList(rows[j])} : j \in 1..Len(rows)}
    IN  CASE type = "bipartite" ->
               LET L == KLeftSide(rows) IN Gr(L, size - L, {<<p[2], p[1] - L>> : p \in pairs})
          [] type = "simple" -> Gr(size, 0, {Norm(type, p) : p \in pairs})
          [] OTHER -> Gr(size, 0, pairs)

\* what the strictest reading of the documentation adds (a reader must not need more)
KStrict(type, txt) ==
    /\ KHasDen(type, txt)
    /\ \A j \in 1..Len(txt) : txt[j].k # "C"
    /\ LET rows == Tail(KBody(txt)) IN
       \A j \in 1..(Len(rows) - 1) : KVertex(rows[j]) < KVertex(rows[j + 1])

(* Part 1b: DIMACS edge format.  `c` lines are comments, exactly one        *)
(* `p edge <n> <m>` line before the edges, m lines `e <u> <v>` with u, v in *)
(* 1..n (u # v for simple graphs; u -> v for directed ones).  Lines of      *)
(* other kinds (blank, other descriptors) carry no graph data.              *)

DIdx(txt, k) == {j \in 1..Len(txt) : txt[j].k = k}
DIsSpec(l) == /\ Len(l.t) = 4 /\ l.t[2] = W("edge")
              /\ IsInt(l.t[3]) /\ IsInt(l.t[4]) /\ l.t[3].i >= 0
DIsEdge(type, l, n) ==
    /\ Len(l.t) = 3 /\ IsInt(l.t[2]) /\ IsInt(l.t[3])
    /\ l.t[2].i \in 1..n /\ l.t[3].i \in 1..n
    /\ (type = "simple") => l.t[2].i # l.t[3].i
DHasDen(type, txt) ==
    LET P == DIdx(txt, "p")
        Es == DIdx(txt, "e")
    IN  /\ Cardinality(P) = 1
        /\ LET p == CHOOSE j \in P : TRUE IN
           /\ DIsSpec(txt[p])
           /\ \A j \in Es : j > p /\ DIsEdge(type, txt[j], txt[p].t[3].i)
           /\ Cardinality(Es) = txt[p].t[4].i
DDen(type, txt) ==
    LET p == CHOOSE j \in DIdx(txt, "p") : TRUE IN
    Gr(txt[p].t[3].i, 0, {Norm(type, <<txt[j].t[2].i, txt[j].t[3].i>>) : j \in DIdx(txt, "e")})

(* Part 1c: matrix format.  "Two numbers r and c separated by whitespace,   *)
(* followed by a whitespace separated sequence of zeros and ones of length  *)
(* r x c"; row i, column j is the edge (left i, right j).  Lines without    *)
(* tokens and lines starting with # are comments.                           *)

MSkip(l) == Len(l.t) = 0 \/ l.k = "#"
MStream(txt) == Flat(SelectSeq(txt, LAMBDA l : ~MSkip(l)))
MHasDen(txt) ==
    LET s == MStream(txt) IN
    /\ AllInts(s) /\ Len(s) >= 2 /\ s[1].i >= 0 /\ s[2].i >= 0
    /\ (s[1].i = 0 \/ s[2].i = 0 \/ (s[1].i <= Len(s) /\ s[2].i <= Len(s)))   \* keeps the product small
    /\ Len(s) = 2 + s[1].i * s[2].i
    /\ \A j \in 3..Len(s) : s[j].i \in {0, 1}
MDen(txt) ==
    LET s == MStream(txt)
        L == s[1].i
        R == s[2].i
    IN  Gr(L, R, {e \in (1..L) \X (1..R) : s[2 + (e[1] - 1) * R + e[2]].i = 1})

HasDen(fmt, type, txt) ==
    CASE fmt = "kthlist" -> KHasDen(type, txt)
      [] fmt = "dimacs"  -> DHasDen(type, txt)
      [] fmt = "matrix"  -> MHasDen(txt)
Den(fmt, type, txt) ==
    CASE fmt = "kthlist" -> KDen(type, txt)
      [] fmt = "dimacs"  -> DDen(type, txt)
      [] fmt = "matrix"  -> MDen(txt)
Strict(fmt, type, txt) ==
    /\ IF fmt = "kthlist" THEN KStrict(type, txt) ELSE HasDen(fmt, type, txt)
    /\ (type = "dag") => Upward(Den(fmt, type, txt).E)

\* The verdict predicate.  out = [o |-> "accept" | "ValueError" | <other>, g |-> graph]
AcceptOK(fmt, type, txt, g) ==
    /\ HasDen(fmt, type, txt)
    /\ g = Den(fmt, type, txt)
    /\ (type = "dag") => Upward(g.E)
Allowed(fmt, type, txt, out) ==
    \/ out.o = "ValueError"
    \/ out.o = "accept" /\ AcceptOK(fmt, type, txt, out.g)

-----------------------------------------------------------------------------
(* Part 2: writers (pure).  g is a graph of the given type.                 *)

Digit(v) == ToString(v)                        \* first character of a number below 10
NameLine == Ln("c", <<W("c"), W("name")>>)
BlankLine == Ln("blank", <<>>)
IntLine(s) == Ln(Digit(s[1]), [j \in 1..Len(s) |-> I(s[j])])
AdjLine(v, lst) == Ln(Digit(v), <<I(v), Colon>> \o [j \in 1..Len(lst) |-> I(lst[j])] \o <<I(0)>>)

\* _write_graph_kthlist_nonbipartite: name, order, one line per vertex with its
\* predecessors (directed) / neighbours (simple) in increasing order, a final empty line
WriteKthNonbip(type, g) ==
    LET Nb(v) == IF type = "simple"
                 THEN {u \in 1..g.n : <<u, v>> \in g.E \/ <<v, u>> \in g.E}
                 ELSE {u \in 1..g.n : <<u, v>> \in g.E}
    IN  <<NameLine, IntLine(<<g.n>>)>> \o [v \in 1..g.n |-> AdjLine(v, SortedSeq(Nb(v)))] \o <<BlankLine>>
\* _write_graph_kthlist_bipartite: order is L+R, one line per LEFT vertex, right
\* neighbour v is written as v + L
WriteKthBip(g) ==
    LET Nb(u) == {v + g.n : v \in {x \in 1..g.r : <<u, x>> \in g.E}}
    IN  <<NameLine, IntLine(<<g.n + g.r>>)>> \o [u \in 1..g.n |-> AdjLine(u, SortedSeq(Nb(u)))] \o <<BlankLine>>
\* _write_graph_dimacs_format
LexLess(a, b) == a[1] < b[1] \/ (a[1] = b[1] /\ a[2] < b[2])
RECURSIVE SortedEdges(_)
SortedEdges(S) == IF S = {} THEN <<>>
                  ELSE LET x == CHOOSE a \in S : \A b \in S : a = b \/ LexLess(a, b)
                       IN  <<x>> \o SortedEdges(S \ {x})
WriteDimacs(g) ==
    LET es == SortedEdges(g.E) IN
    <<NameLine, Ln("p", <<W("p"), W("edge"), I(g.n), I(Cardinality(g.E))>>)>>
    \o [j \in 1..Len(es) |-> Ln("e", <<W("e"), I(es[j][1]), I(es[j][2])>>)]
\* _write_graph_matrix_format: "L R", then one row per left vertex (an empty line when R = 0)
WriteMatrix(g) ==
    LET Row(u) == [v \in 1..g.r |-> IF <<u, v>> \in g.E THEN 1 ELSE 0] IN
    <<IntLine(<<g.n, g.r>>)>>
    \o [u \in 1..g.n |-> IF g.r = 0 THEN BlankLine ELSE IntLine(Row(u))]

Write(fmt, type, g) ==
    CASE fmt = "kthlist" /\ type = "bipartite" -> WriteKthBip(g)
      [] fmt = "kthlist" -> WriteKthNonbip(type, g)
      [] fmt = "dimacs"  -> WriteDimacs(g)
      [] fmt = "matrix"  -> WriteMatrix(g)

-----------------------------------------------------------------------------
(* Part 3: reader machines.  s.status: "run" | "ValueError" | "accept";     *)
(* s.ended: the end of the text has been processed; s.g: the graph          *)
(* returned; s.m: the bookkeeping fields of the reader.                     *)

Start(m) == [status |-> "run", ended |-> FALSE, g |-> NoGraph, m |-> m]
Refuse(s) == [s EXCEPT !.status = "ValueError"]
Accept(s, g) == [s EXCEPT !.status = "accept", !.g = g]

\* --- kthlist: _kthlist_parse fused with the loop of _read_*_kthlist -------
\*  size: -1 until the size line; prev: vertex of the last adjacency line;
\*  lo..hi: bipartition_ambiguous; E: edges gathered
KthInit == Start([size |-> -1, prev |-> 0, lo |-> 1, hi |-> 0, E |-> {}])

KthKind(l) == IF l.k = "c" THEN "comment"                  \* l[0] == 'c'
              ELSE IF Len(l.t) = 0 THEN "blank"            \* len(l.strip()) == 0
              ELSE IF Colon \notin Elems(l.t) THEN "size"  \* ':' not in l
              ELSE "adj"

KthSize(s, l) ==
    IF s.m.size >= 0 THEN Refuse(s)                                   \* second spec directive
    ELSE IF Len(l.t) = 1 /\ IsInt(l.t[1]) /\ l.t[1].i >= 0            \* int(l.strip()), >= 0
         THEN [s EXCEPT !.m.size = l.t[1].i, !.m.hi = l.t[1].i]
         ELSE Refuse(s)

\* the reader's loop body for one yielded (v, lst)
KthYield(type, s, v, lst) ==
    IF v <= s.m.prev THEN Refuse(s)                                   \* not increasing
    ELSE IF type = "bipartite" THEN
        IF v > s.m.hi THEN Refuse(s)                                  \* v cannot be on the left
        ELSE LET lo2 == IF v + 1 > s.m.lo THEN v + 1 ELSE s.m.lo IN
             IF \E x \in Elems(lst) : x < lo2 THEN Refuse(s)          \* neighbour on the left side
             ELSE [s EXCEPT !.m.prev = v, !.m.lo = lo2,
                            !.m.hi = SMin({s.m.hi} \cup {x - 1 : x \in Elems(lst)}),
                            !.m.E = @ \cup {<<v, x>> : x \in Elems(lst)}]
    ELSE IF type = "simple" /\ v \in Elems(lst) THEN Refuse(s)        \* add_edge(v, v)
    ELSE [s EXCEPT !.m.prev = v, !.m.E = @ \cup {Norm(type, <<x, v>>) : x \in Elems(lst)}]

KthAdj(type, s, l) ==
    LET cols == {j \in 1..Len(l.t) : l.t[j] = Colon} IN
    IF Cardinality(cols) # 1 THEN Refuse(s)                           \* left, right = l.split(':')
    ELSE LET p == CHOOSE j \in cols : TRUE
             left == SubSeq(l.t, 1, p - 1)
             right == SubSeq(l.t, p + 1, Len(l.t))
         IN  IF Len(left) # 1 \/ ~AllInts(left) \/ ~AllInts(right) THEN Refuse(s)
             ELSE IF Len(right) < 1 \/ right[Len(right)].i # 0 THEN Refuse(s)   \* must end with 0
             ELSE LET v == left[1].i
                      lst == Ints(SubSeq(right, 1, Len(right) - 1))
                  IN  IF v < 1 \/ v > s.m.size THEN Refuse(s)         \* also: no size line yet
                      ELSE IF \E x \in Elems(lst) : x < 1 \/ x > s.m.size THEN Refuse(s)
                      ELSE KthYield(type, s, v, lst)

KthEnd(type, s) ==
    IF s.m.size < 0 THEN Refuse(s)                                    \* no size line at all
    ELSE IF type = "bipartite"
         THEN LET L == s.m.lo - 1 IN
              Accept(s, Gr(L, s.m.size - L, {<<e[1], e[2] - L>> : e \in s.m.E}))
         ELSE Accept(s, Gr(s.m.size, 0, s.m.E))

\* --- dimacs: _read_graph_dimacs_format -----------------------------------
DimInit == Start([n |-> -1, m |-> -1, cnt |-> 0, E |-> {}])
DimKind(l) == IF Len(l.t) = 0 THEN "blank"
              ELSE IF l.k \in {"c", "p", "e"} THEN l.k ELSE "other"
DimSpec(s, l) ==
    IF s.m.n >= 0 THEN Refuse(s)                                      \* second spec line
    ELSE IF Len(l.t) # 4 THEN Refuse(s)                               \* _, fmt, nstr, mstr = l.split()
    ELSE IF l.t[2] # W("edge") THEN Refuse(s)
    ELSE IF ~IsInt(l.t[3]) \/ ~IsInt(l.t[4]) THEN Refuse(s)
    ELSE IF l.t[3].i < 0 THEN Refuse(s)                               \* graph_class(n)
    ELSE [s EXCEPT !.m.n = l.t[3].i, !.m.m = l.t[4].i]
DimEdge(type, s, l) ==
    IF s.m.n < 0 THEN Refuse(s)                                       \* edge before preamble
    ELSE IF Len(l.t) # 3 THEN Refuse(s)                               \* _, v, w = l.split()
    ELSE IF ~IsInt(l.t[2]) \/ ~IsInt(l.t[3]) THEN Refuse(s)
    ELSE LET u == l.t[2].i
             v == l.t[3].i
         IN  IF u < 1 \/ u > s.m.n \/ v < 1 \/ v > s.m.n \/ (type = "simple" /\ u = v)
             THEN Refuse(s)                                           \* add_edge refuses
             ELSE [s EXCEPT !.m.cnt = @ + 1, !.m.E = @ \cup {Norm(type, <<u, v>>)}]
DimEnd(s) == IF s.m.m # s.m.cnt THEN Refuse(s)                        \* also: no spec line (m = -1)
             ELSE Accept(s, Gr(s.m.n, 0, s.m.E))

\* --- matrix: _read_graph_matrix_format (scan_integer + the double loop) ---
\*  phase: "L" | "R" | "bits" | "full"; k: entries read
MatInit == Start([phase |-> "L", L |-> 0, R |-> 0, k |-> 0, E |-> {}])
MatKind(l) == IF Len(l.t) = 0 \/ l.k = "#" THEN "comment" ELSE "data"
MatToken(s, x) ==
    IF s.status # "run" THEN s
    ELSE CASE s.m.phase = "L" -> [s EXCEPT !.m.L = x, !.m.phase = "R"]
           [] s.m.phase = "R" ->
                IF s.m.L < 0 \/ x < 0 THEN Refuse(s)                  \* BipartiteGraph(n, m)
                ELSE [s EXCEPT !.m.R = x, !.m.phase = IF s.m.L * x = 0 THEN "full" ELSE "bits"]
           [] s.m.phase = "bits" ->
                IF x \notin {0, 1} THEN Refuse(s)
                ELSE LET a == (s.m.k \div s.m.R) + 1
                         b == (s.m.k % s.m.R) + 1
                     IN  [s EXCEPT !.m.k = @ + 1,
                                   !.m.E = IF x = 1 THEN @ \cup {<<a, b>>} ELSE @,
                                   !.m.phase = IF s.m.k + 1 = s.m.L * s.m.R THEN "full" ELSE "bits"]
           [] s.m.phase = "full" -> Refuse(s)                         \* more than L x R entries
RECURSIVE MatFold(_, _)
MatFold(s, xs) == IF xs = <<>> THEN s ELSE MatFold(MatToken(s, Head(xs)), Tail(xs))
MatData(s, l) == IF ~AllInts(l.t) THEN Refuse(s)                      \* non numeric entry on the line
                 ELSE MatFold(s, Ints(l.t))
MatEnd(s) == IF s.m.phase # "full" THEN Refuse(s)                     \* unexpected end of the matrix
             ELSE Accept(s, Gr(s.m.L, s.m.R, s.m.E))

\* --- the machines as one step function (used by Guide) -------------------
Step(fmt, type, s, l) ==
    IF s.status # "run" THEN s
    ELSE CASE fmt = "kthlist" ->
                 (CASE KthKind(l) \in {"comment", "blank"} -> s
                    [] KthKind(l) = "size" -> KthSize(s, l)
                    [] KthKind(l) = "adj"  -> KthAdj(type, s, l))
           [] fmt = "dimacs" ->
                 (CASE DimKind(l) \in {"blank", "c", "other"} -> s
                    [] DimKind(l) = "p" -> DimSpec(s, l)
                    [] DimKind(l) = "e" -> DimEdge(type, s, l))
           [] fmt = "matrix" ->
                 (CASE MatKind(l) = "comment" -> s
                    [] MatKind(l) = "data" -> MatData(s, l))
\* end of the text, then readGraph's own test: a graph read as `dag` must be upward
Finish(fmt, type, s) ==
    LET f == IF s.status # "run" THEN s
             ELSE CASE fmt = "kthlist" -> KthEnd(type, s)
                    [] fmt = "dimacs"  -> DimEnd(s)
                    [] fmt = "matrix"  -> MatEnd(s)
        d == IF f.status = "accept" /\ type = "dag" /\ ~Upward(f.g.E)
             THEN [f EXCEPT !.status = "ValueError", !.g = NoGraph] ELSE f
    IN  [d EXCEPT !.ended = TRUE]
InitState(fmt) == CASE fmt = "kthlist" -> KthInit [] fmt = "dimacs" -> DimInit [] fmt = "matrix" -> MatInit

-----------------------------------------------------------------------------
(* Part 4: the model                                                        *)

\* --- alphabets (free mode) ------------------------------------------------
NbrSeqs == {SortedSeq(S) : S \in SUBSET (1..N)} \cup {<<N, 1>>, <<1, 1>>, <<N + 1>>, <<0>>}
KthAlphabet ==
    {BlankLine, NameLine, Ln("C", <<W("C"), W("x")>>)}
    \cup {IntLine(<<k>>) : k \in {0, N}} \cup {Ln("-", <<I(-1)>>)}
    \cup {AdjLine(v, s) : v \in 1..N, s \in NbrSeqs}
    \cup {AdjLine(0, <<>>), AdjLine(N + 1, <<>>)}
    \cup { Ln("x", <<W("x")>>),                                      \* a word
           Ln("1", <<I(1), I(2)>>),                                  \* two numbers, no colon
           Ln("1", <<I(1), Colon, I(2)>>),                           \* list not closed by 0
           Ln("1", <<I(1), Colon>>),                                 \* no list at all
           Ln("1", <<I(1), Colon, I(2), Colon, I(0)>>),              \* two colons
           Ln("1", <<I(1), Colon, W("x"), I(0)>>),                   \* a word in the list
           Ln("x", <<W("x"), Colon, I(0)>>),                         \* a word as vertex
           Ln(":", <<Colon, I(0)>>),                                 \* no vertex
           Ln("1", <<I(1), I(2), Colon, I(0)>>),                     \* two vertices
           Ln("1", <<I(1), Colon, I(0), I(2), I(0)>>) }              \* 0 inside the list
DimAlphabet ==
    {BlankLine, NameLine, Ln("n", <<W("n"), I(1), I(2)>>), Ln("x", <<W("x")>>)}
    \cup {Ln("p", <<W("p"), W("edge"), I(n), I(m)>>) : n \in {N}, m \in 0..2}
    \cup { Ln("p", <<W("p"), W("edge"), I(0), I(0)>>),
           Ln("p", <<W("p"), W("edge"), I(-1), I(0)>>),
           Ln("p", <<W("p"), W("edge"), I(N), I(-1)>>),
           Ln("p", <<W("p"), W("cnf"), I(N), I(1)>>),
           Ln("p", <<W("p"), W("edge"), I(N)>>),
           Ln("p", <<W("p"), W("edge"), I(N), I(1), I(1)>>),
           Ln("p", <<W("p"), W("edge"), W("x"), I(1)>>),
           Ln("p", <<W("px"), W("edge"), I(N), I(1)>>) }
    \cup {Ln("e", <<W("e"), I(u), I(v)>>) : u, v \in 0..(N + 1)}
    \cup { Ln("e", <<W("e"), I(1)>>),
           Ln("e", <<W("e"), I(1), W("x")>>),
           Ln("e", <<W("e"), I(1), I(2), I(1)>>),
           Ln("e", <<W("edge"), I(1), I(2)>>) }
MatAlphabet ==
    {BlankLine, Ln("#", <<W("#"), W("x")>>), Ln("#", <<W("#1"), I(1)>>)}
    \cup {IntLine(<<a>>) : a \in 0..2} \cup {Ln("-", <<I(-1)>>)}
    \cup {IntLine(<<a, b>>) : a, b \in 0..2}
    \cup { IntLine(<<1, 0, 1>>), IntLine(<<2, 2, 1, 0>>), IntLine(<<1, 1, 1, 1>>),
           Ln("x", <<W("x")>>), Ln("1", <<I(1), W("x")>>), Ln("1", <<I(1), W("#"), I(1)>>) }
Alphabet == CASE Fmt = "kthlist" -> KthAlphabet [] Fmt = "dimacs" -> DimAlphabet
              [] Fmt = "matrix" -> MatAlphabet

\* --- graphs written in roundtrip mode --------------------------------------
PairsOf(type, k) ==
    CASE type \in {"simple", "dag"} -> {e \in (1..k) \X (1..k) : e[1] < e[2]}
      [] type = "digraph" -> (1..k) \X (1..k)
GraphsOf(type) ==
    IF type = "bipartite"
    THEN UNION {{Gr(L, R, S) : S \in SUBSET ((1..L) \X (1..R))} : L \in 0..N, R \in 0..N}
    ELSE UNION {{Gr(k, 0, S) : S \in SUBSET PairsOf(type, k)} : k \in 0..N}

\* --- behaviour ---------------------------------------------------------------
Init ==
    /\ text = <<>>
    /\ st = InitState(Fmt)
    /\ IF Mode = "roundtrip"
       THEN goal \in GraphsOf(Type) /\ pending = Write(Fmt, Type, goal)
       ELSE goal = NoGraph /\ pending = <<>>

Offered ==
    IF Mode = "roundtrip" THEN (IF pending = <<>> THEN {} ELSE {Head(pending)})
    ELSE IF Len(text) >= MaxLen THEN {}
    ELSE IF Guide THEN {l \in Alphabet : Step(Fmt, Type, st, l).status = "run"}
    ELSE Alphabet

\* consume line l with the branch `s2` of the reader that handles its kind
Consume(l, s2) ==
    /\ ~st.ended
    /\ Prune => st.status = "run"
    /\ text' = Append(text, l)
    /\ st' = IF st.status = "run" THEN s2 ELSE st
    /\ pending' = IF Mode = "roundtrip" THEN Tail(pending) ELSE pending
    /\ UNCHANGED goal

\* one action per line kind the code distinguishes
KthComment  == Fmt = "kthlist" /\ \E l \in Offered : KthKind(l) = "comment" /\ Consume(l, st)
KthBlank    == Fmt = "kthlist" /\ \E l \in Offered : KthKind(l) = "blank"   /\ Consume(l, st)
KthSizeLine == Fmt = "kthlist" /\ \E l \in Offered : KthKind(l) = "size"    /\ Consume(l, KthSize(st, l))
KthAdjLine  == Fmt = "kthlist" /\ \E l \in Offered : KthKind(l) = "adj"     /\ Consume(l, KthAdj(Type, st, l))
DimBlank    == Fmt = "dimacs" /\ \E l \in Offered : DimKind(l) = "blank" /\ Consume(l, st)
DimComment  == Fmt = "dimacs" /\ \E l \in Offered : DimKind(l) = "c"     /\ Consume(l, st)
DimOther    == Fmt = "dimacs" /\ \E l \in Offered : DimKind(l) = "other" /\ Consume(l, st)
DimSpecLine == Fmt = "dimacs" /\ \E l \in Offered : DimKind(l) = "p"     /\ Consume(l, DimSpec(st, l))
DimEdgeLine == Fmt = "dimacs" /\ \E l \in Offered : DimKind(l) = "e"     /\ Consume(l, DimEdge(Type, st, l))
MatComment  == Fmt = "matrix" /\ \E l \in Offered : MatKind(l) = "comment" /\ Consume(l, st)
MatDataLine == Fmt = "matrix" /\ \E l \in Offered : MatKind(l) = "data"    /\ Consume(l, MatData(st, l))

EndText ==
    /\ ~st.ended
    /\ (Mode = "roundtrip") => pending = <<>>
    /\ Guide => (Len(text) >= MaxLen \/ Offered = {})         \* guided walks run to full length
    /\ st' = Finish(Fmt, Type, st)
    /\ UNCHANGED <<text, pending, goal>>

Next ==
    \/ KthComment \/ KthBlank \/ KthSizeLine \/ KthAdjLine
    \/ DimBlank \/ DimComment \/ DimOther \/ DimSpecLine \/ DimEdgeLine
    \/ MatComment \/ MatDataLine
    \/ EndText

Spec == Init /\ [][Next]_vars

-----------------------------------------------------------------------------
(* invariants                                                               *)

Out == [o |-> st.status, g |-> st.g]

TypeOK ==
    /\ st.status \in {"run", "ValueError", "accept"}
    /\ st.ended \in BOOLEAN
    /\ st.ended => st.status # "run"
    /\ (st.status = "accept") => st.ended
    /\ Len(text) <= (IF Mode = "roundtrip" THEN N * N + N + 4 ELSE MaxLen)

\* whatever the machine answers is allowed by the denotation: an accepted
\* graph is THE graph the documentation assigns to the text
Conforms == st.ended => Allowed(Fmt, Type, text, Out)

\* and it refuses only what the documentation lets it refuse: every text in
\* the strict documented form is accepted (so ValueError is not a blanket excuse)
Complete == (st.ended /\ Strict(Fmt, Type, text)) => st.status = "accept"

\* a text without denotation is never accepted, a dag text only when upward
DagAccept == (st.ended /\ st.status = "accept" /\ Type = "dag") => Upward(st.g.E)

\* writer then reader is the identity, and the written text denotes the graph
RoundTripOK ==
    (Mode = "roundtrip" /\ st.ended) =>
        /\ st.status = "accept"
        /\ st.g = goal
        /\ HasDen(Fmt, Type, text) /\ Den(Fmt, Type, text) = goal
        /\ Strict(Fmt, Type, text)

\* export: every finished text with the answer of the reference machine
EmitInv == (Emit /\ st.ended) => PrintT(ToJson([lines |-> text, mach |-> st.status]))
=============================================================================
