#!/bin/sh
# Offline setup: nothing to build; verify the toolchain and parse every TLA+ module.
cd "$(dirname "$0")" || exit 1
mkdir -p .work evidence
command -v java >/dev/null || { echo "java missing" >&2; exit 1; }
[ -x /venv/bin/python ] || { echo "/venv/bin/python missing" >&2; exit 1; }
rc=0
tmp="$(pwd)/.work/sany_tmp"; mkdir -p "$tmp"
for f in spec/*.tla; do
  out=$(cd spec && java -Djava.io.tmpdir="$tmp" -cp /opt/veriftools/tla/tla2tools.jar:/opt/veriftools/tla/CommunityModules-deps.jar tla2sany.SANY "$(basename "$f")" 2>&1)
  if echo "$out" | grep -qi "error\|abort"; then echo "SANY failed on $f"; echo "$out" | tail -20; rc=1; fi
done
rm -rf "$tmp"
[ $rc -eq 0 ] && echo "setup ok: $(ls spec/*.tla | wc -l) TLA+ modules parsed"
exit $rc
